//! Suite `share` (C11): `defer(count; source).tap(count)` multicast by
//! `share()` / `share_threads()` (field `kind share`) or by
//! `publish::<Subject>()` + explicit `connect` (field `kind publish`).
//! Field `src` = `(hot)` (a subject driven by `emit 0 <notif>`) or `(iter v ...)`
//! (cold, synchronous).  Up to three labelled probe subscribers.
//!
//! Events
//!   `sub k`     subscribe probe k (the handle is kept in slot k)
//!   `unsub k`   unsubscribe the handle in slot k (no-op if empty)
//!   `emit 0 n`  the hot source subject is called
//!   `connect`   publish: `connect()` (the first time); share: no-op
//!   `q`         `srcsubs=<n> tap=<n>` (+ ` closed=<0|1> len=<n>` of the inner subject, publish only)
//! Every event but `q` prints the deliveries it caused, in call order, and the two
//! upstream counters after the event: `d=0:N5;1:N5 s=1 t=3`.
use std::convert::Infallible;
use std::sync::atomic::{AtomicUsize, Ordering};
use std::sync::{Arc, Mutex};

use rxrust::ops::box_it::{BoxIt, CloneableBoxOp, CloneableBoxOpThreads};
use rxrust::prelude::*;
use rxrust::subject::SubjectSize;

use crate::val::{Notif, Val};
use crate::{Case, Out};

fn widen(e: Infallible) -> i64 {
  match e {}
}

type Log = Arc<Mutex<Vec<String>>>;

struct Probe {
  k: usize,
  log: Log,
  /// event `subfin`: an observer that reports finished from the start (and logs nothing)
  fin: bool,
}
impl Observer<Val, i64> for Probe {
  fn next(&mut self, v: Val) {
    if !self.fin {
      self.log.lock().unwrap().push(format!("{}:{}", self.k, Notif::Next(v)));
    }
  }
  fn error(self, e: i64) {
    if !self.fin {
      self.log.lock().unwrap().push(format!("{}:{}", self.k, Notif::Error(e)));
    }
  }
  fn complete(self) {
    if !self.fin {
      self.log.lock().unwrap().push(format!("{}:{}", self.k, Notif::Complete));
    }
  }
  fn is_finished(&self) -> bool {
    self.fin
  }
}

pub fn run(case: &Case, out: &mut Out) {
  if case.flavor == "threads" {
    run_threads(case, out)
  } else {
    run_local(case, out)
  }
}

macro_rules! impl_share_run {
  ($name:ident, $subject:ty, $bx:ty, $share:ident) => {
    fn $name(case: &Case, out: &mut Out) {
      let kind = case.field("kind")[0].atom().to_string();
      let log: Log = Arc::new(Mutex::new(vec![]));
      let srcsubs = Arc::new(AtomicUsize::new(0));
      let taps = Arc::new(AtomicUsize::new(0));
      let hot: $subject = <$subject>::default();
      let src = &case.field("src")[0];
      let source: $bx = match src.head() {
        "hot" => hot.clone().box_it(),
        "iter" => {
          let vs: Vec<Val> = src.list()[1..].iter().map(Val::parse).collect();
          observable::from_iter(vs).on_error_map(widen).box_it()
        }
        s => panic!("unknown source {}", s),
      };
      let pipeline: $bx = {
        let c = srcsubs.clone();
        let t = taps.clone();
        observable::defer(move || {
          c.fetch_add(1, Ordering::SeqCst);
          source
        })
        .tap(move |_| {
          t.fetch_add(1, Ordering::SeqCst);
        })
        .box_it()
      };
      let mut shared = None;
      let mut connectable = None;
      let mut fork: Option<$subject> = None;
      let mut _connection = None;
      if kind == "publish" {
        let c = pipeline.publish::<$subject>();
        fork = Some(c.fork());
        connectable = Some(c);
      } else {
        shared = Some(pipeline.$share());
      }
      let mut handles: Vec<Option<Box<dyn FnOnce()>>> = vec![None, None, None];
      let drain = |log: &Log| {
        format!(
          "d={} s={} t={}",
          std::mem::take(&mut *log.lock().unwrap()).join(";"),
          srcsubs.load(Ordering::SeqCst),
          taps.load(Ordering::SeqCst)
        )
      };
      for (k, ev) in case.events.iter().enumerate() {
        out.cur = k;
        match ev[0].atom() {
          "sub" | "subfin" => {
            let i = ev[1].nat();
            let probe = Probe { k: i, log: log.clone(), fin: ev[0].atom() == "subfin" };
            let h: Box<dyn FnOnce()> = if let Some(s) = &shared {
              let u = s.clone().actual_subscribe(probe);
              Box::new(move || u.unsubscribe())
            } else {
              let u = fork.as_ref().unwrap().clone().actual_subscribe(probe);
              Box::new(move || u.unsubscribe())
            };
            handles[i] = Some(h);
            out.emit(k, drain(&log));
          }
          "unsub" => {
            if let Some(h) = handles[ev[1].nat()].take() {
              h();
            }
            out.emit(k, drain(&log));
          }
          "emit" => {
            let mut s = hot.clone();
            match Notif::parse(&ev[2]) {
              Notif::Next(v) => s.next(v),
              Notif::Error(e) => s.error(e),
              Notif::Complete => s.complete(),
            }
            out.emit(k, drain(&log));
          }
          "connect" => {
            if let Some(c) = connectable.take() {
              _connection = Some(c.connect());
            }
            out.emit(k, drain(&log));
          }
          "q" => {
            let mut line = format!(
              "srcsubs={} tap={}",
              srcsubs.load(Ordering::SeqCst),
              taps.load(Ordering::SeqCst)
            );
            if let Some(f) = &fork {
              line += &format!(" closed={} len={}", f.is_closed() as u8, f.len());
            }
            out.emit(k, line);
          }
          e => panic!("unknown event {}", e),
        }
      }
    }
  };
}

impl_share_run!(run_local, Subject<'static, Val, i64>, CloneableBoxOp<'static, Val, i64>, share);
impl_share_run!(run_threads, SubjectThreads<Val, i64>, CloneableBoxOpThreads<Val, i64>, share_threads);
