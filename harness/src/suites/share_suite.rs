//! Suite `share` (C11): `defer(count; source).tap(count)` multicast by
//! `share()` / `share_threads()` (field `kind share`) or by
//! `publish::<Subject>()` + explicit `connect` (field `kind publish`).
//! Field `src` = `(hot)` (a subject driven by `emit 0 <notif>`) or `(iter v ...)`
//! (cold, synchronous).  Up to three labelled probe subscribers.
//!
//! Events
//!   `sub k`     subscribe probe k (the handle is kept in slot k)
//!   `unsub k`   unsubscribe the handle in slot k (no-op if empty)
//!   `emit 0 n`  the hot source subject is called
//!   `connect`   publish: `connect()` (the first time); share: no-op
//!   `q`         `srcsubs=<n> tap=<n>` (+ ` closed=<0|1> len=<n>` of the inner subject, publish only)
//! Every event but `q` prints the deliveries it caused, in call order, and the two
//! upstream counters after the event: `d=0:N5;1:N5 s=1 t=3`.
use std::convert::Infallible;
use std::sync::atomic::{AtomicUsize, Ordering};
use std::sync::{Arc, Mutex};

use rxrust::ops::box_it::{BoxIt, CloneableBoxOp, CloneableBoxOpThreads};
use rxrust::prelude::*;
use rxrust::subject::SubjectSize;

use crate::val::{Notif, Val};
use crate::{Case, Out};

fn widen(e: Infallible) -> i64 {
  match e {}
}

type Log = Arc<Mutex<Vec<String>>>;

/// event `emitj`: what subscriber `.0` does from inside its `next` callback (taken by the first call)
type Join = Arc<Mutex<Option<(usize, Cheat)>>>;

/// A closure of the case's OWN thread kept where the thread-safe flavour wants `Send` (the probe): every case of this
/// suite runs on one thread, the closure never crosses to another.
struct Cheat(Box<dyn FnOnce()>);
unsafe impl Send for Cheat {}
impl Cheat {
  fn run(self) {
    (self.0)()
  }
}

struct Probe {
  k: usize,
  log: Log,
  /// event `subfin`: an observer that reports finished from the start (and logs nothing)
  fin: bool,
  join: Join,
}
impl Observer<Val, i64> for Probe {
  fn next(&mut self, v: Val) {
    if !self.fin {
      self.log.lock().unwrap().push(format!("{}:{}", self.k, Notif::Next(v)));
      let mine = {
        let mut j = self.join.lock().unwrap();
        if j.as_ref().map_or(false, |(k, _)| *k == self.k) { j.take() } else { None }
      };
      if let Some((_, f)) = mine {
        f.run()
      }
    }
  }
  fn error(self, e: i64) {
    if !self.fin {
      self.log.lock().unwrap().push(format!("{}:{}", self.k, Notif::Error(e)));
    }
  }
  fn complete(self) {
    if !self.fin {
      self.log.lock().unwrap().push(format!("{}:{}", self.k, Notif::Complete));
    }
  }
  fn is_finished(&self) -> bool {
    self.fin
  }
}

pub fn run(case: &Case, out: &mut Out) {
  if case.flavor == "threads" {
    run_threads(case, out)
  } else {
    run_local(case, out)
  }
}

macro_rules! impl_share_run {
  ($name:ident, $subject:ty, $bx:ty, $share:ident) => {
    fn $name(case: &Case, out: &mut Out) {
      let kind = case.field("kind")[0].atom().to_string();
      let log: Log = Arc::new(Mutex::new(vec![]));
      let srcsubs = Arc::new(AtomicUsize::new(0));
      let taps = Arc::new(AtomicUsize::new(0));
      let hot: $subject = <$subject>::default();
      let src = &case.field("src")[0];
      let source: $bx = match src.head() {
        "hot" => hot.clone().box_it(),
        "iter" => {
          let vs: Vec<Val> = src.list()[1..].iter().map(Val::parse).collect();
          observable::from_iter(vs).on_error_map(widen).box_it()
        }
        s => panic!("unknown source {}", s),
      };
      let pipeline: $bx = {
        let c = srcsubs.clone();
        let t = taps.clone();
        observable::defer(move || {
          c.fetch_add(1, Ordering::SeqCst);
          source
        })
        .tap(move |_| {
          t.fetch_add(1, Ordering::SeqCst);
        })
        .box_it()
      };
      let mut shared = None;
      let mut connectable = None;
      let mut fork: Option<$subject> = None;
      let mut _connection = None;
      if kind == "publish" {
        let c = pipeline.publish::<$subject>();
        fork = Some(c.fork());
        connectable = Some(c);
      } else {
        shared = Some(pipeline.$share());
      }
      let handles: Arc<Mutex<Vec<Option<Cheat>>>> = Arc::new(Mutex::new(vec![None, None, None]));
      let join: Join = Arc::new(Mutex::new(None));
      let drain = |log: &Log| {
        format!(
          "d={} s={} t={}",
          std::mem::take(&mut *log.lock().unwrap()).join(";"),
          srcsubs.load(Ordering::SeqCst),
          taps.load(Ordering::SeqCst)
        )
      };
      for (k, ev) in case.events.iter().enumerate() {
        out.cur = k;
        match ev[0].atom() {
          "sub" | "subfin" => {
            let i = ev[1].nat();
            let probe = Probe { k: i, log: log.clone(), fin: ev[0].atom() == "subfin", join: join.clone() };
            let h: Cheat = if let Some(s) = &shared {
              let u = s.clone().actual_subscribe(probe);
              Cheat(Box::new(move || u.unsubscribe()))
            } else {
              let u = fork.as_ref().unwrap().clone().actual_subscribe(probe);
              Cheat(Box::new(move || u.unsubscribe()))
            };
            handles.lock().unwrap()[i] = Some(h);
            out.emit(k, drain(&log));
          }
          "unsub" => {
            let h = handles.lock().unwrap()[ev[1].nat()].take();
            if let Some(h) = h {
              h.run();
            }
            out.emit(k, drain(&log));
          }
          "emitj" => {
            // emit <notif>; from inside subscriber k's callback for it, subscriber j joins the shared observable
            let (lk, lj) = (ev[3].nat(), ev[4].nat());
            let (log2, join2, handles2) = (log.clone(), join.clone(), handles.clone());
            let target: Cheat = if let Some(s) = &shared {
              let s = s.clone();
              Cheat(Box::new(move || {
                let u = s.actual_subscribe(Probe { k: lj, log: log2, fin: false, join: join2 });
                handles2.lock().unwrap()[lj] = Some(Cheat(Box::new(move || u.unsubscribe())));
              }))
            } else {
              let f = fork.as_ref().unwrap().clone();
              Cheat(Box::new(move || {
                let u = f.actual_subscribe(Probe { k: lj, log: log2, fin: false, join: join2 });
                handles2.lock().unwrap()[lj] = Some(Cheat(Box::new(move || u.unsubscribe())));
              }))
            };
            *join.lock().unwrap() = Some((lk, target));
            let mut s = hot.clone();
            match Notif::parse(&ev[2]) {
              Notif::Next(v) => s.next(v),
              Notif::Error(e) => s.error(e),
              Notif::Complete => s.complete(),
            }
            let _unused = join.lock().unwrap().take();
            out.emit(k, drain(&log));
          }
          "emit" => {
            let mut s = hot.clone();
            match Notif::parse(&ev[2]) {
              Notif::Next(v) => s.next(v),
              Notif::Error(e) => s.error(e),
              Notif::Complete => s.complete(),
            }
            out.emit(k, drain(&log));
          }
          "connect" => {
            if let Some(c) = connectable.take() {
              _connection = Some(c.connect());
            }
            out.emit(k, drain(&log));
          }
          "q" => {
            let mut line = format!(
              "srcsubs={} tap={}",
              srcsubs.load(Ordering::SeqCst),
              taps.load(Ordering::SeqCst)
            );
            if let Some(f) = &fork {
              line += &format!(" closed={} len={}", f.is_closed() as u8, f.len());
            }
            out.emit(k, line);
          }
          e => panic!("unknown event {}", e),
        }
      }
    }
  };
}

impl_share_run!(run_local, Subject<'static, Val, i64>, CloneableBoxOp<'static, Val, i64>, share);
impl_share_run!(run_threads, SubjectThreads<Val, i64>, CloneableBoxOpThreads<Val, i64>, share_threads);
