//! Items carried through the real pipelines: mirror of the Lean `Rx.Val`,
//! with the same printed form, plus the named function family that both sides
//! implement (Lean: RxModel/Driver/Fns.lean).
use std::fmt;
use std::ops::{Add, Mul};

use crate::sexp::SExp;

#[derive(Clone, Debug, PartialEq, Eq)]
pub enum Val {
  Int(i64),
  Bool(bool),
  Unit,
  Pair(Box<Val>, Box<Val>),
  List(Vec<Val>),
  None,
  Some(Box<Val>),
  Obs(usize),
}

/// A deliberately COARSE hash (legal: equal values hash equally; many unequal values collide, e.g. 0, 2, 4 …):
/// code under test that identifies a key by its hash instead of `Eq` (seed C20-5) is exposed at once, correct
/// code only walks longer buckets.
impl std::hash::Hash for Val {
  fn hash<H: std::hash::Hasher>(&self, h: &mut H) {
    match self {
      Val::Int(i) => i.rem_euclid(2).hash(h),
      _ => 0u8.hash(h),
    }
  }
}

impl Default for Val {
  fn default() -> Self {
    Val::Int(0)
  }
}

/// Only integers are ordered; everything else is incomparable (the model's
/// min/max follow the same table).
impl PartialOrd for Val {
  fn partial_cmp(&self, other: &Self) -> Option<std::cmp::Ordering> {
    match (self, other) {
      (Val::Int(a), Val::Int(b)) => a.partial_cmp(b),
      _ => None,
    }
  }
}

/// `Fn2.add`: integer addition, otherwise the right operand.
impl Add for Val {
  type Output = Val;
  fn add(self, rhs: Val) -> Val {
    match (self, rhs) {
      (Val::Int(a), Val::Int(b)) => Val::Int(a.wrapping_add(b)),
      (_, b) => b,
    }
  }
}

/// `average` multiplies the sum by `1.0 / n`; invert that and divide integers
/// (truncating), so that no float ever reaches a comparison.
impl Mul<f64> for Val {
  type Output = Val;
  fn mul(self, rhs: f64) -> Val {
    let n = (1.0 / rhs).round() as i64;
    match self {
      Val::Int(a) if n != 0 => Val::Int(a / n),
      v => v,
    }
  }
}

impl fmt::Display for Val {
  fn fmt(&self, f: &mut fmt::Formatter<'_>) -> fmt::Result {
    match self {
      Val::Int(i) => write!(f, "{}", i),
      Val::Bool(true) => write!(f, "T"),
      Val::Bool(false) => write!(f, "F"),
      Val::Unit => write!(f, "U"),
      Val::Pair(a, b) => write!(f, "(p {} {})", a, b),
      Val::List(xs) => {
        write!(f, "(l")?;
        for x in xs {
          write!(f, " {}", x)?;
        }
        write!(f, ")")
      }
      Val::None => write!(f, "N"),
      Val::Some(v) => write!(f, "(s {})", v),
      Val::Obs(k) => write!(f, "(o {})", k),
    }
  }
}

impl Val {
  pub fn parse(e: &SExp) -> Val {
    match e {
      SExp::Atom(a) => match a.as_str() {
        "T" => Val::Bool(true),
        "F" => Val::Bool(false),
        "U" => Val::Unit,
        "N" => Val::None,
        s => Val::Int(s.parse().unwrap_or_else(|_| panic!("bad value atom {}", s))),
      },
      SExp::List(xs) => match xs[0].atom() {
        "p" => Val::Pair(Box::new(Val::parse(&xs[1])), Box::new(Val::parse(&xs[2]))),
        "l" => Val::List(xs[1..].iter().map(Val::parse).collect()),
        "s" => Val::Some(Box::new(Val::parse(&xs[1]))),
        "o" => Val::Obs(xs[1].atom().parse().unwrap()),
        h => panic!("bad value head {}", h),
      },
    }
  }
}

/// A notification of a script.
#[derive(Clone, Debug, PartialEq)]
pub enum Notif {
  Next(Val),
  Error(i64),
  Complete,
}

impl Notif {
  pub fn parse(e: &SExp) -> Notif {
    match e {
      SExp::Atom(a) if a == "c" => Notif::Complete,
      SExp::List(xs) if xs[0].atom() == "n" => Notif::Next(Val::parse(&xs[1])),
      SExp::List(xs) if xs[0].atom() == "e" => Notif::Error(xs[1].atom().parse().unwrap()),
      _ => panic!("bad notif {:?}", e),
    }
  }
}

impl fmt::Display for Notif {
  fn fmt(&self, f: &mut fmt::Formatter<'_>) -> fmt::Result {
    match self {
      Notif::Next(v) => write!(f, "N{}", v),
      Notif::Error(e) => write!(f, "E{}", e),
      Notif::Complete => write!(f, "C"),
    }
  }
}

// ---------------------------------------------------------------- functions

fn split_name(name: &str) -> (&str, i64) {
  let idx = name
    .char_indices()
    .find(|(_, c)| c.is_ascii_digit() || *c == '-')
    .map(|(i, _)| i)
    .unwrap_or(name.len());
  let (h, t) = name.split_at(idx);
  (h, if t.is_empty() { 0 } else { t.parse().unwrap() })
}

/// `Fn1`: Val -> Val.
pub fn fn1(name: &str) -> impl Fn(Val) -> Val + Clone + Send + Sync + 'static {
  let (h, k) = split_name(name);
  let h = h.to_string();
  move |v: Val| match (h.as_str(), &v) {
    ("id", _) => v,
    ("add", Val::Int(i)) => Val::Int(i.wrapping_add(k)),
    ("mul", Val::Int(i)) => Val::Int(i.wrapping_mul(k)),
    ("mod", Val::Int(i)) => Val::Int(if k == 0 { *i } else { i.rem_euclid(k) }),
    ("div", Val::Int(i)) => Val::Int(if k == 0 { *i } else { i.div_euclid(k) }),
    ("const", _) => Val::Int(k),
    ("neg", Val::Int(i)) => Val::Int(-i),
    ("fst", Val::Pair(a, _)) => (**a).clone(),
    ("snd", Val::Pair(_, b)) => (**b).clone(),
    ("unwrap", Val::Some(a)) => (**a).clone(),
    _ => v,
  }
}

/// `Pred`: Val -> bool.
pub fn pred(name: &str) -> impl Fn(&Val) -> bool + Clone + Send + Sync + 'static {
  let (h, k) = split_name(name);
  let h = h.to_string();
  move |v: &Val| match (h.as_str(), v) {
    ("true", _) => true,
    ("false", _) => false,
    ("even", Val::Int(i)) => i.rem_euclid(2) == 0,
    ("lt", Val::Int(i)) => *i < k,
    ("gt", Val::Int(i)) => *i > k,
    ("eq", Val::Int(i)) => *i == k,
    ("ne", Val::Int(i)) => *i != k,
    _ => false,
  }
}

/// `FnOpt`: Val -> Option<Val> (filter_map).
pub fn fnopt(name: &str) -> impl Fn(Val) -> Option<Val> + Clone + Send + Sync + 'static {
  let (h, k) = split_name(name);
  let h = h.to_string();
  move |v: Val| match (h.as_str(), &v) {
    ("some", _) => Some(v),
    ("none", _) => None,
    ("evenhalf", Val::Int(i)) => {
      if i.rem_euclid(2) == 0 {
        Some(Val::Int(i.div_euclid(2)))
      } else {
        None
      }
    }
    ("gtadd", Val::Int(i)) => {
      if *i > k {
        Some(Val::Int(i.wrapping_add(k)))
      } else {
        None
      }
    }
    _ => None,
  }
}

/// `Fn2`: accumulator functions for scan/reduce.
pub fn fn2(name: &str) -> impl Fn(Val, Val) -> Val + Clone + Send + Sync + 'static {
  let h = name.to_string();
  move |a: Val, b: Val| match (h.as_str(), &a, &b) {
    ("add", _, _) => a + b,
    ("mul", Val::Int(x), Val::Int(y)) => Val::Int(x.wrapping_mul(*y)),
    ("max", Val::Int(x), Val::Int(y)) => Val::Int(*x.max(y)),
    ("min", Val::Int(x), Val::Int(y)) => Val::Int(*x.min(y)),
    ("left", _, _) => a,
    ("right", _, _) => b,
    ("count", Val::Int(x), _) => Val::Int(x + 1),
    ("pair", _, _) => Val::Pair(Box::new(a), Box::new(b)),
    _ => b,
  }
}

/// `FnE`: error mapping i64 -> i64.
pub fn fne(name: &str) -> impl Fn(i64) -> i64 + Clone + Send + Sync + 'static {
  let (h, k) = split_name(name);
  let h = h.to_string();
  move |e: i64| match h.as_str() {
    "id" => e,
    "add" => e.wrapping_add(k),
    "neg" => -e,
    "const" => k,
    _ => e,
  }
}
