//! Interpreter from the pipeline description (S-expression, the same text the
//! Lean driver reads) to a *real* rxRust pipeline: one library call per node,
//! boxed between nodes.  Generated twice by one macro: local and thread-safe.
//!
//! Glue the model treats as identity (DESIGN §4.1): `on_error_map` widening of
//! `Infallible`, and `map` adapters turning library-typed items
//! (`bool`, `usize`, `Vec<_>`, tuples, `()`) into `Val`.
use std::cell::RefCell;
use std::convert::Infallible;
use std::rc::Rc;
use std::sync::atomic::{AtomicU8, Ordering};
use std::sync::{Arc, Mutex};

use rxrust::observer::{BoxObserver, BoxObserverThreads};
use rxrust::ops::box_it::{BoxIt, CloneableBoxOp, CloneableBoxOpThreads};
use rxrust::prelude::*;

use rxrust::ops::throttle::ThrottleEdge;
use rxrust::scheduler::verif::{VerifScheduler, VerifSchedulerThreads};

use crate::ascript::{Script, ScriptedFuture, ScriptedStream, ScriptedTryFuture, ScriptedTryStream};
use crate::sexp::SExp;
use crate::val::{fn1, fn2, fne, fnopt, pred, Notif, Val};

pub type LBox = CloneableBoxOp<'static, Val, i64>;
pub type TBox = CloneableBoxOpThreads<Val, i64>;

fn widen(e: Infallible) -> i64 {
  match e {}
}

fn ms(e: &SExp) -> Duration {
  crate::vtime::ticks(e.nat() as u64)
}

fn edge(e: &SExp) -> ThrottleEdge {
  match e.atom() {
    "l" => ThrottleEdge::leading(),
    "t" => ThrottleEdge::tailing(),
    _ => ThrottleEdge::all(),
  }
}

/// A cloneable collection that reports every `into_iter()` to a counter (source `iterl`).
#[derive(Clone)]
pub struct LazyIterable<F> {
  vs: Vec<Val>,
  cc: F,
}

impl<F: Fn()> IntoIterator for LazyIterable<F> {
  type Item = Val;
  type IntoIter = std::vec::IntoIter<Val>;
  fn into_iter(self) -> Self::IntoIter {
    (self.cc)();
    self.vs.into_iter()
  }
}

fn pair(a: Val, b: Val) -> Val {
  Val::Pair(Box::new(a), Box::new(b))
}

/// Counters observable from scripts (`tap` calls etc.), shared by both flavours.
#[derive(Default)]
pub struct Counters {
  pub tap: Vec<usize>,
  /// items pulled from counting iterators (`iterc`)
  pub pulls: usize,
  /// calls of the closures given to of_fn / start / defer
  pub calls: usize,
}

/// Per-case environment of the local flavour.
#[derive(Clone, Default)]
pub struct LCtx {
  pub subjects: Rc<RefCell<Vec<Subject<'static, Val, i64>>>>,
  pub creates: Rc<RefCell<Vec<Subscriber<BoxObserver<'static, Val, i64>>>>>,
  pub counters: Rc<RefCell<Counters>>,
  pub sched: VerifScheduler,
  /// case field `mono k` (see `mono_pairs!`): 0 = box after every operator
  pub mono: Arc<AtomicU8>,
}

/// Per-case environment of the thread-safe flavour.
#[derive(Clone, Default)]
pub struct TCtx {
  pub subjects: Arc<Mutex<Vec<SubjectThreads<Val, i64>>>>,
  pub creates: Arc<Mutex<Vec<SubscriberThreads<BoxObserverThreads<Val, i64>>>>>,
  pub counters: Arc<Mutex<Counters>>,
  pub sched: VerifSchedulerThreads,
  /// case field `mono k` (see `mono_pairs!`): 0 = box after every operator
  pub mono: Arc<AtomicU8>,
}

impl LCtx {
  pub fn subject(&self, i: usize) -> Subject<'static, Val, i64> {
    let mut s = self.subjects.borrow_mut();
    while s.len() <= i {
      s.push(Subject::default());
    }
    s[i].clone()
  }
  fn tap_counter(&self) -> impl Fn(&Val) + Clone + 'static {
    let c = self.counters.clone();
    let k = {
      let mut g = c.borrow_mut();
      g.tap.push(0);
      g.tap.len() - 1
    };
    move |_| c.borrow_mut().tap[k] += 1
  }
  fn call_counter(&self) -> impl Fn() + Clone + 'static {
    let c = self.counters.clone();
    move || c.borrow_mut().calls += 1
  }
  fn pull_counter(&self) -> impl Fn(i64) -> Val + Clone + 'static {
    let c = self.counters.clone();
    move |k| {
      c.borrow_mut().pulls += 1;
      Val::Int(k)
    }
  }
  /// counts the items a scripted stream yields (`stream`, `streamres`)
  fn pull_tick(&self) -> impl Fn() + Clone + Unpin + 'static {
    let c = self.counters.clone();
    move || c.borrow_mut().pulls += 1
  }
  fn create(&self, script: Vec<Notif>) -> LBox {
    let creates = self.creates.clone();
    observable::create(move |s: Subscriber<BoxObserver<'static, Val, i64>>| {
      creates.borrow_mut().push(s.clone());
      for n in script.iter() {
        match n {
          Notif::Next(v) => s.clone().next(v.clone()),
          Notif::Error(e) => s.clone().error(*e),
          Notif::Complete => s.clone().complete(),
        }
      }
    })
    .box_it()
  }
  /// `dinterval d p`: a REPEATING task (period p, ticks 0,1,2,…) handed to `schedule()` WITH a start delay d — public API of
  /// the scheduler that no operator of the crate uses (they give delays to one-shot tasks only)
  fn dinterval(&self, d: Duration, p: Duration) -> LBox {
    use rxrust::scheduler::{RepeatTask, Scheduler};
    let sched = self.sched.clone();
    fn tick(s: &mut Subscriber<BoxObserver<'static, Val, i64>>, seq: usize) -> bool {
      if !s.is_finished() && !s.is_closed() {
        s.next(Val::Int(seq as i64));
        true
      } else {
        false
      }
    }
    observable::create(move |s: Subscriber<BoxObserver<'static, Val, i64>>| {
      let _handle = sched.schedule(RepeatTask::new(p, tick, s), Some(d));
    })
    .box_it()
  }
}

impl TCtx {
  pub fn subject(&self, i: usize) -> SubjectThreads<Val, i64> {
    let mut s = self.subjects.lock().unwrap();
    while s.len() <= i {
      s.push(SubjectThreads::default());
    }
    s[i].clone()
  }
  fn tap_counter(&self) -> impl Fn(&Val) + Clone + Send + 'static {
    let c = self.counters.clone();
    let k = {
      let mut g = c.lock().unwrap();
      g.tap.push(0);
      g.tap.len() - 1
    };
    move |_| c.lock().unwrap().tap[k] += 1
  }
  fn call_counter(&self) -> impl Fn() + Clone + Send + 'static {
    let c = self.counters.clone();
    move || c.lock().unwrap().calls += 1
  }
  fn pull_counter(&self) -> impl Fn(i64) -> Val + Clone + Send + 'static {
    let c = self.counters.clone();
    move |k| {
      c.lock().unwrap().pulls += 1;
      Val::Int(k)
    }
  }
  /// counts the items a scripted stream yields (`stream`, `streamres`)
  fn pull_tick(&self) -> impl Fn() + Clone + Send + Unpin + 'static {
    let c = self.counters.clone();
    move || c.lock().unwrap().pulls += 1
  }
  fn create(&self, script: Vec<Notif>) -> TBox {
    let creates = self.creates.clone();
    observable::create(move |s: SubscriberThreads<BoxObserverThreads<Val, i64>>| {
      creates.lock().unwrap().push(s.clone());
      for n in script.iter() {
        match n {
          Notif::Next(v) => s.clone().next(v.clone()),
          Notif::Error(e) => s.clone().error(*e),
          Notif::Complete => s.clone().complete(),
        }
      }
    })
    .box_it()
  }
  fn dinterval(&self, d: Duration, p: Duration) -> TBox {
    use rxrust::scheduler::{RepeatTask, Scheduler};
    let sched = self.sched.clone();
    fn tick(s: &mut SubscriberThreads<BoxObserverThreads<Val, i64>>, seq: usize) -> bool {
      if !s.is_finished() && !s.is_closed() {
        s.next(Val::Int(seq as i64));
        true
      } else {
        false
      }
    }
    observable::create(move |s: SubscriberThreads<BoxObserverThreads<Val, i64>>| {
      let _handle = sched.schedule(RepeatTask::new(p, tick, s), Some(d));
    })
    .box_it()
  }
}


// ---------------------------------------------------------------- monomorphic pairs
// With the case field `mono 1|2` two adjacent single-input operators of the list below are applied
// WITHOUT a box between them: `src.a(..).b(..).box_it()`, so the receiver of `b` has the concrete
// static type `AOp<…>` exactly as in user code (method resolution, inherent methods and
// specialised impls on operator structs are exercised).  The pipeline text and the model are the
// same as for the boxed build; `mono 2` shifts the pairing by one operator (the root is built
// alone), so every adjacency of a chain is covered by one of the two.
macro_rules! op1 {
  (map, $s:expr, $xs:expr, $ctx:expr) => { $s.map(fn1($xs[1].atom())) };
  (mapto, $s:expr, $xs:expr, $ctx:expr) => { $s.map_to(Val::parse(&$xs[1])) };
  (filter, $s:expr, $xs:expr, $ctx:expr) => { $s.filter(pred($xs[1].atom())) };
  (filtermap, $s:expr, $xs:expr, $ctx:expr) => { $s.filter_map(fnopt($xs[1].atom())) };
  (tap, $s:expr, $xs:expr, $ctx:expr) => { $s.tap($ctx.tap_counter()) };
  (onerrmap, $s:expr, $xs:expr, $ctx:expr) => { $s.on_error_map(fne($xs[1].atom())) };
  (take, $s:expr, $xs:expr, $ctx:expr) => { $s.take($xs[1].nat()) };
  (takewhile, $s:expr, $xs:expr, $ctx:expr) => { $s.take_while(pred($xs[1].atom())) };
  (takewhilei, $s:expr, $xs:expr, $ctx:expr) => { $s.take_while_inclusive(pred($xs[1].atom())) };
  (skip, $s:expr, $xs:expr, $ctx:expr) => { $s.skip($xs[1].nat()) };
  (skipwhile, $s:expr, $xs:expr, $ctx:expr) => { $s.skip_while(pred($xs[1].atom())) };
  (takelast, $s:expr, $xs:expr, $ctx:expr) => { $s.take_last($xs[1].nat()) };
  (skiplast, $s:expr, $xs:expr, $ctx:expr) => { $s.skip_last($xs[1].nat()) };
  (last, $s:expr, $xs:expr, $ctx:expr) => { $s.last() };
  (dflt, $s:expr, $xs:expr, $ctx:expr) => { $s.default_if_empty(Val::parse(&$xs[1])) };
  (scan, $s:expr, $xs:expr, $ctx:expr) => { $s.scan_initial(Val::parse(&$xs[2]), fn2($xs[1].atom())) };
  (distinct, $s:expr, $xs:expr, $ctx:expr) => { $s.distinct() };
  (duc, $s:expr, $xs:expr, $ctx:expr) => { $s.distinct_until_changed() };
  (pairwise, $s:expr, $xs:expr, $ctx:expr) => { $s.pairwise().map(|(a, b)| pair(a, b)) };
  (bufcount, $s:expr, $xs:expr, $ctx:expr) => { $s.buffer_with_count($xs[1].nat()).map(Val::List) };
  (contains, $s:expr, $xs:expr, $ctx:expr) => { $s.contains(Val::parse(&$xs[1])).map(Val::Bool) };
  (startwith, $s:expr, $xs:expr, $ctx:expr) => {
    $s.start_with($xs[1].list().iter().map(Val::parse).collect::<Vec<Val>>())
  };
  (first, $s:expr, $xs:expr, $ctx:expr) => { $s.first() };
  (elementat, $s:expr, $xs:expr, $ctx:expr) => { $s.element_at($xs[1].nat()) };
  (ignore, $s:expr, $xs:expr, $ctx:expr) => { $s.ignore_elements() };
}

macro_rules! mono_row {
  ($a:ident, $hb:expr, $src:expr, $xa:expr, $xb:expr, $ctx:expr; [$($b:ident)*]) => {
    $( if $hb == stringify!($b) {
      return Some(op1!($b, op1!($a, $src, $xa, $ctx), $xb, $ctx).box_it());
    } )*
  };
}

macro_rules! mono_pairs {
  ($ha:expr, $hb:expr, $src:expr, $xa:expr, $xb:expr, $ctx:expr; [$($a:ident)*] $bs:tt) => {
    $( if $ha == stringify!($a) {
      mono_row!($a, $hb, $src, $xa, $xb, $ctx; $bs);
    } )*
  };
}

pub const MONO_OPS: &[&str] = &[
  "map", "mapto", "filter", "filtermap", "tap", "onerrmap", "take", "takewhile", "takewhilei", "skip",
  "skipwhile", "takelast", "skiplast", "last", "dflt", "scan", "distinct", "duc", "pairwise", "bufcount",
  "contains", "startwith", "first", "elementat", "ignore",
];

macro_rules! impl_mono {
  ($name:ident, $ctx:ty, $bx:ty) => {
    /// `src.a(..).b(..).box_it()` for operators `xa` (inner) and `xb` (outer) of `MONO_OPS`.
    fn $name(xa: &[SExp], xb: &[SExp], src: $bx, ctx: &$ctx) -> Option<$bx> {
      let (ha, hb) = (xa[0].atom(), xb[0].atom());
      mono_pairs!(ha, hb, src, xa, xb, ctx;
        [map mapto filter filtermap tap onerrmap take takewhile takewhilei skip skipwhile takelast
         skiplast last dflt scan distinct duc pairwise bufcount contains startwith first elementat ignore]
        [map mapto filter filtermap tap onerrmap take takewhile takewhilei skip skipwhile takelast
         skiplast last dflt scan distinct duc pairwise bufcount contains startwith first elementat ignore]);
      None
    }
  };
}
impl_mono!(mono_local, LCtx, LBox);
impl_mono!(mono_threads, TCtx, TBox);

macro_rules! impl_build {
  ($name:ident, $mono:ident, $ctx:ty, $bx:ty,
   $merge:ident, $zip:ident, $combine:ident, $wlf:ident, $take_until:ident,
   $skip_until:ident, $sample:ident, $delay:ident, $delay_at:ident, $observe_on:ident,
   $finalize:ident, $flat_map:ident, $concat_map:ident, $merge_all:ident) => {
    pub fn $name(e: &SExp, ctx: &$ctx) -> $bx {
      let xs = e.list();
      let head = xs[0].atom();
      let last = || $name(&xs[xs.len() - 1], ctx);
      match ctx.mono.load(Ordering::SeqCst) {
        0 => {}
        2 => ctx.mono.store(1, Ordering::SeqCst), // the root is built alone, pairs start below it
        _ => {
          if let Some(SExp::List(inner)) = xs.last() {
            if MONO_OPS.contains(&head)
              && MONO_OPS.contains(&inner[0].head())
              && matches!(inner.last(), Some(SExp::List(_)))
            {
              let src = $name(&inner[inner.len() - 1], ctx);
              if let Some(p) = $mono(inner, xs, src, ctx) {
                return p;
              }
              unreachable!("mono pair not generated");
            }
          }
        }
      }
      match head {
        // ------------------------------------------------------- sources
        "hot" => ctx.subject(xs[1].nat()).box_it(),
        "of" => observable::of(Val::parse(&xs[1])).on_error_map(widen).box_it(),
        "ofsome" => observable::of_option(Some(Val::parse(&xs[1]))).on_error_map(widen).box_it(),
        "ofnone" => observable::of_option(None::<Val>).on_error_map(widen).box_it(),
        "ofok" => observable::of_result(Ok::<Val, i64>(Val::parse(&xs[1]))).box_it(),
        "oferr" => observable::of_result(Err::<Val, i64>(xs[1].int())).box_it(),
        "offn" => {
          let (v, cc) = (Val::parse(&xs[1]), ctx.call_counter());
          observable::of_fn(move || {
            cc();
            v
          })
          .on_error_map(widen)
          .box_it()
        }
        "start" => {
          let (v, cc) = (Val::parse(&xs[1]), ctx.call_counter());
          observable::start(move || {
            cc();
            v
          })
          .on_error_map(widen)
          .box_it()
        }
        "iter" => {
          let vs: Vec<Val> = xs[1..].iter().map(Val::parse).collect();
          observable::from_iter(vs).on_error_map(widen).box_it()
        }
        "iterl" => {
          // from_iter over a collection whose `into_iter()` is itself observable (counted as a closure
          // call): it must run once per subscription and never while the pipeline is built
          let vs: Vec<Val> = xs[1..].iter().map(Val::parse).collect();
          observable::from_iter(LazyIterable { vs, cc: ctx.call_counter() }).on_error_map(widen).box_it()
        }
        "iterc" => {
          // from_iter over a lazy iterator that counts every item pulled from it
          let n = xs[1].nat() as i64;
          observable::from_iter((0..n).map(ctx.pull_counter())).on_error_map(widen).box_it()
        }
        "repeat" => observable::repeat(Val::parse(&xs[1]), xs[2].nat()).on_error_map(widen).box_it(),
        "empty" => {
          ObservableExt::<Val, Infallible>::on_error_map(observable::empty(), widen).box_it()
        }
        "never" => observable::never().map(|_| Val::Unit).on_error_map(widen).box_it(),
        "throw" => observable::throw(xs[1].int()).map(|_| Val::Unit).box_it(),
        "create" => ctx.create(xs[1..].iter().map(Notif::parse).collect()),
        "dinterval" => ctx.dinterval(ms(&xs[1]), ms(&xs[2])),
        "defer" => {
          let inner = xs[1].clone();
          let c = ctx.clone();
          let cc = ctx.call_counter();
          observable::defer(move || {
            cc();
            $name(&inner, &c)
          })
          .box_it()
        }
        // ----------------------------------------------- single-input ops
        "map" => last().map(fn1(xs[1].atom())).box_it(),
        "mapto" => last().map_to(Val::parse(&xs[1])).box_it(),
        "filter" => last().filter(pred(xs[1].atom())).box_it(),
        "filtermap" => last().filter_map(fnopt(xs[1].atom())).box_it(),
        "tap" => last().tap(ctx.tap_counter()).box_it(),
        "onerrmap" => last().on_error_map(fne(xs[1].atom())).box_it(),
        "take" => last().take(xs[1].nat()).box_it(),
        "takewhile" => last().take_while(pred(xs[1].atom())).box_it(),
        "takewhilei" => last().take_while_inclusive(pred(xs[1].atom())).box_it(),
        "skip" => last().skip(xs[1].nat()).box_it(),
        "skipwhile" => last().skip_while(pred(xs[1].atom())).box_it(),
        "takelast" => last().take_last(xs[1].nat()).box_it(),
        "skiplast" => last().skip_last(xs[1].nat()).box_it(),
        "last" => last().last().box_it(),
        "dflt" => last().default_if_empty(Val::parse(&xs[1])).box_it(),
        "scan" => last().scan_initial(Val::parse(&xs[2]), fn2(xs[1].atom())).box_it(),
        "distinct" => last().distinct().box_it(),
        "distinctkey" => {
          let f = fn1(xs[1].atom());
          last().distinct_key(move |v: &Val| f(v.clone())).box_it()
        }
        "duc" => last().distinct_until_changed().box_it(),
        "dukc" => {
          let f = fn1(xs[1].atom());
          last().distinct_until_key_changed(move |v: &Val| f(v.clone())).box_it()
        }
        "pairwise" => last().pairwise().map(|(a, b)| pair(a, b)).box_it(),
        "bufcount" => last().buffer_with_count(xs[1].nat()).map(Val::List).box_it(),
        "contains" => last().contains(Val::parse(&xs[1])).map(Val::Bool).box_it(),
        "collect" => last().collect::<Vec<Val>>().map(Val::List).box_it(),
        "startwith" => {
          let vs: Vec<Val> = xs[1].list().iter().map(Val::parse).collect();
          last().start_with(vs).box_it()
        }
        // `fin`: finalize / finalize_threads with a counted callback (counter `calls`)
        "fin" => last().$finalize(ctx.call_counter()).box_it(),
        // ------------------------------------------------- derived ops
        "first" => last().first().box_it(),
        "firstor" => last().first_or(Val::parse(&xs[1])).box_it(),
        "lastor" => last().last_or(Val::parse(&xs[1])).box_it(),
        "elementat" => last().element_at(xs[1].nat()).box_it(),
        "ignore" => last().ignore_elements().box_it(),
        "all" => {
          let p = pred(xs[1].atom());
          last().all(move |v: Val| p(&v)).map(Val::Bool).box_it()
        }
        "reduce" => last().reduce_initial(Val::parse(&xs[2]), fn2(xs[1].atom())).box_it(),
        "sum" => last().sum().box_it(),
        "count" => last().count().map(|n: usize| Val::Int(n as i64)).box_it(),
        "min" => last().min().box_it(),
        "max" => last().max().box_it(),
        "average" => last().average().box_it(),
        // ------------------------------------------------- two-input ops
        "merge" => $name(&xs[1], ctx).$merge($name(&xs[2], ctx)).box_it(),
        "zip" => $name(&xs[1], ctx).$zip($name(&xs[2], ctx)).map(|(a, b)| pair(a, b)).box_it(),
        "combine" => $name(&xs[1], ctx)
          .$combine($name(&xs[2], ctx), |a: Val, b: Val| (a, b))
          .map(|(a, b)| pair(a, b))
          .box_it(),
        "withlatest" => {
          $name(&xs[1], ctx).$wlf($name(&xs[2], ctx)).map(|(a, b)| pair(a, b)).box_it()
        }
        // every item of the source starts a clone of the INNER pipeline (flat_map / concat_map / map + merge_all n);
        // no chain model: implementation + oracle only (C16: a producer inside an inner observable retires)
        "flatmap" => {
          // (MergeAllOp is not Clone: a deferred build per subscription keeps the node clonable)
          let (inner, src) = ($name(&xs[1], ctx), $name(&xs[2], ctx));
          observable::defer(move || src.$flat_map(move |_| inner.clone())).box_it()
        }
        "concatmap" => {
          let (inner, src) = ($name(&xs[1], ctx), $name(&xs[2], ctx));
          observable::defer(move || src.$concat_map(move |_| inner.clone())).box_it()
        }
        "mergemap" => {
          let (inner, src, n) = ($name(&xs[2], ctx), $name(&xs[3], ctx), xs[1].nat());
          observable::defer(move || src.map(move |_| inner.clone()).$merge_all(n)).box_it()
        }
        "takeuntil" => $name(&xs[1], ctx).$take_until($name(&xs[2], ctx)).box_it(),
        "skipuntil" => $name(&xs[1], ctx).$skip_until($name(&xs[2], ctx)).box_it(),
        "sample" => $name(&xs[1], ctx).$sample($name(&xs[2], ctx)).box_it(),
        "buffer" => {
          $name(&xs[1], ctx).buffer($name(&xs[2], ctx).map(|_| ())).map(Val::List).box_it()
        }
        // ------------------------------------------- scheduler-using sources
        "interval" => observable::interval(ms(&xs[1]), ctx.sched.clone())
          .map(|n: usize| Val::Int(n as i64))
          .on_error_map(widen)
          .box_it(),
        "intervalat" => {
          // interval_at(now + delay, period)
          let (d, p, sc) = (ms(&xs[1]), ms(&xs[2]), ctx.sched.clone());
          observable::defer(move || observable::interval_at(Instant::now() + d, p, sc))
            .map(|n: usize| Val::Int(n as i64))
            .on_error_map(widen)
            .box_it()
        }
        "timer" => {
          let (v, d, sc) = (Val::parse(&xs[1]), ms(&xs[2]), ctx.sched.clone());
          observable::defer(move || observable::timer(v, d, sc)).on_error_map(widen).box_it()
        }
        "timerat" => {
          let (v, d, sc) = (Val::parse(&xs[1]), ms(&xs[2]), ctx.sched.clone());
          observable::defer(move || observable::timer_at(v, Instant::now() + d, sc))
            .on_error_map(widen)
            .box_it()
        }
        // ------------------------------------------------- async sources
        // scripted futures / streams (ascript.rs), spawned on the case's scheduler
        "future" => {
          let f = ScriptedFuture(Script::new(&xs[1..], ctx.pull_tick()));
          observable::from_future(f, ctx.sched.clone()).on_error_map(widen).box_it()
        }
        "futureres" => {
          let f = ScriptedTryFuture(Script::new(&xs[1..], ctx.pull_tick()));
          observable::from_future_result(f, ctx.sched.clone()).box_it()
        }
        "stream" => {
          let st = ScriptedStream(Script::new(&xs[1..], ctx.pull_tick()));
          observable::from_stream(st, ctx.sched.clone()).on_error_map(widen).box_it()
        }
        "streamres" => {
          let st = ScriptedTryStream(Script::new(&xs[1..], ctx.pull_tick()));
          observable::from_stream_result(st, ctx.sched.clone()).box_it()
        }
        // --------------------------------------------- scheduler-using ops
        "delay" => last().$delay(ms(&xs[1]), ctx.sched.clone()).box_it(),
        "delayat" => {
          let (d, sc, src) = (ms(&xs[1]), ctx.sched.clone(), last());
          observable::defer(move || src.$delay_at(Instant::now() + d, sc)).box_it()
        }
        "observeon" => last().$observe_on(ctx.sched.clone()).box_it(),
        "subscribeon" => last().subscribe_on(ctx.sched.clone()).box_it(),
        "delaysub" => last().delay_subscription(ms(&xs[1]), ctx.sched.clone()).box_it(),
        "delaysubat" => {
          let (d, sc, src) = (ms(&xs[1]), ctx.sched.clone(), last());
          observable::defer(move || src.delay_subscription_at(Instant::now() + d, sc)).box_it()
        }
        "debounce" => last().debounce(ms(&xs[1]), ctx.sched.clone()).box_it(),
        "throttle" => {
          let d = ms(&xs[1]);
          last().throttle(move |_: &Val| d, edge(&xs[2]), ctx.sched.clone()).box_it()
        }
        "buftime" => last().buffer_with_time(ms(&xs[1]), ctx.sched.clone()).map(Val::List).box_it(),
        "bufcounttime" => last()
          .buffer_with_count_and_time(xs[1].nat(), ms(&xs[2]), ctx.sched.clone())
          .map(Val::List)
          .box_it(),
        h => panic!("unknown pipe head {}", h),
      }
    }
  };
}

impl_build!(
  build_local, mono_local, LCtx, LBox, merge, zip, combine_latest, with_latest_from, take_until, skip_until,
  sample, delay, delay_at, observe_on, finalize, flat_map, concat_map, merge_all
);
impl_build!(
  build_threads,
  mono_threads,
  TCtx,
  TBox,
  merge_threads,
  zip_threads,
  combine_latest_threads,
  with_latest_from_threads,
  take_until_threads,
  skip_until_threads,
  sample_threads,
  delay_threads,
  delay_at_threads,
  observe_on_threads,
  finalize_threads,
  flat_map_threads,
  concat_map_threads,
  merge_all_threads
);
