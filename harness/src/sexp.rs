//! Minimal S-expression reader shared by all suites.
#[derive(Clone, Debug, PartialEq)]
pub enum SExp {
  Atom(String),
  List(Vec<SExp>),
}

impl SExp {
  pub fn atom(&self) -> &str {
    match self {
      SExp::Atom(a) => a,
      SExp::List(_) => panic!("expected atom, got list {:?}", self),
    }
  }
  pub fn list(&self) -> &[SExp] {
    match self {
      SExp::List(xs) => xs,
      SExp::Atom(a) => panic!("expected list, got atom {}", a),
    }
  }
  pub fn head(&self) -> &str {
    match self {
      SExp::Atom(a) => a,
      SExp::List(xs) => xs[0].atom(),
    }
  }
  pub fn nat(&self) -> usize {
    self.atom().parse().unwrap_or_else(|_| panic!("expected nat, got {:?}", self))
  }
  pub fn int(&self) -> i64 {
    self.atom().parse().unwrap_or_else(|_| panic!("expected int, got {:?}", self))
  }
}

fn tokens(s: &str) -> Vec<String> {
  let mut out = vec![];
  let mut cur = String::new();
  for c in s.chars() {
    match c {
      '(' | ')' => {
        if !cur.is_empty() {
          out.push(std::mem::take(&mut cur));
        }
        out.push(c.to_string());
      }
      c if c.is_whitespace() => {
        if !cur.is_empty() {
          out.push(std::mem::take(&mut cur));
        }
      }
      c => cur.push(c),
    }
  }
  if !cur.is_empty() {
    out.push(cur);
  }
  out
}

fn parse_at(toks: &[String], pos: &mut usize) -> SExp {
  let t = &toks[*pos];
  *pos += 1;
  if t == "(" {
    let mut xs = vec![];
    while toks[*pos] != ")" {
      xs.push(parse_at(toks, pos));
    }
    *pos += 1;
    SExp::List(xs)
  } else {
    SExp::Atom(t.clone())
  }
}

/// Parse a whole line into the sequence of top-level expressions.
pub fn parse_all(s: &str) -> Vec<SExp> {
  let toks = tokens(s);
  let mut pos = 0;
  let mut out = vec![];
  while pos < toks.len() {
    out.push(parse_at(&toks, &mut pos));
  }
  out
}
